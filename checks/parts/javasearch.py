"""part `javasearch` (C12): end-to-end search.  For every program of corpus/java/*.as (and generated
MiniAldor programs when vlib.miniald is present) and Q in {1,3,9}:
    aldor -Q<n> -Fjava -Jmain p.as  ->  javac -cp <foamj>  ->  java -cp .:<foamj>:foam.jar:aldor.jar aldorcode.p
is compared with `aldor -Q<n> -Ginterp p.as`: same stdout, same success/failure status.
foamj is compiled from the tree's current lib/java/src/foamj sources; foam.jar (libfoam) and aldor.jar
(libaldor) are the jars built in /repo (they are the "shipped" library jars; they are not rebuilt here).

The programs stay inside the region where the routes can agree at all (Props/C12.lean,
agree_within_31bit_*): machine integers within 31 bits, shift counts 0..31.  corpus/java/witness/*.as
are programs that are EXPECTED to differ: one shows the width difference (by construction, not a
finding), the others replay the table defects found by part jmap on the real routes."""
import os, re, shutil
from vlib import common, aldor
from vlib.common import VERIF
from checks.parts import jmap, jexpr

NAME = "javasearch"
BUILD_TARGETS = []
SOURCES = ["java/genjava.c", "java/javacode.c", "java/javaobj.c", "gf_java.c", "javasig.c"]
MODELLED = "nothing (end-to-end search over the real routes; the emitter genjava.c is not modelled)"
THEOREMS = []
QS = (1, 3, 9)
GEN_FEATURES = ["int", "bool", "str", "list", "rec", "closure", "loop", "exit", "return", "overload", "uncaught"]
JVM = ["-XX:TieredStopAtLevel=1", "-XX:+UseSerialGC", "-Xshare:auto"]

def jars():
    return {"foam.jar": os.path.join(common.COMP, "lib", "libfoam", "al", "foam.jar"),
            "aldor.jar": os.path.join(common.ALDOR_TOP, "lib", "aldor", "src", "aldor.jar")}

def lib_classes(build, foamj, stats):
    """The library jars in the tree (libfoam: foam.jar, libaldor: aldor.jar) hold Java that an earlier
    build of the compiler generated from the libraries' .ao files; after an edit of the Java back end they
    are stale.  So the Java of every unit found in the two jars is generated again from the same .ao file
    with the tree's current compiler (`aldor -Fjava unit.ao`, as lib/buildlib.mk does), compiled, and put
    in front of the jars on the class path.  ~80 units, ~15 s.  Units that cannot be regenerated keep
    their class from the jar."""
    import zipfile
    d = getattr(build, "lib_classes_dir", None)
    if d is not None: return d
    J = jars()
    where = {"aldor.jar": os.path.join(common.ALDOR_TOP, "lib", "aldor", "src", "*"),
             "foam.jar": os.path.join(common.COMP, "lib", "libfoam", "al")}
    import glob
    jobs, units = [], []
    for jar, pat in where.items():
        names = sorted({n[len("aldorcode/"):-len(".class")] for n in zipfile.ZipFile(J[jar]).namelist()
                        if n.startswith("aldorcode/") and n.endswith(".class") and "$" not in n})
        for u in names:
            aos = glob.glob(os.path.join(pat, u + ".ao"))
            if not aos:
                stats.setdefault("lib_units_kept_from_jar", []).append(u); continue
            units.append(u)
            jobs.append((aldor.compile, (build, {u + ".ao": open(aos[0], "rb").read()}, ["-Fjava", u + ".ao"]), {"timeout": 300}))
    out = os.path.join(build.top, "lib-classes")
    srcd = os.path.join(build.top, "lib-java", "aldorcode")
    os.makedirs(out, exist_ok=True); os.makedirs(srcd, exist_ok=True)
    files = []
    for u, r in zip(units, aldor.run_many(jobs, workers=16)):
        jsrc = None if isinstance(r, Exception) else r["outputs"].get(os.path.join("aldorcode", u + ".java"))
        if jsrc is None:
            stats.setdefault("lib_units_kept_from_jar", []).append(u); continue
        f = os.path.join(srcd, u + ".java")
        with open(f, "wb") as h: h.write(jsrc)
        files.append(f)
    if files:
        rc, o, e = common.run(["javac", "-nowarn", "-cp", foamj, "-d", out] + files, timeout=1200)
        if rc != 0:
            # the regenerated library does not compile: that is the Java route failing on the library's own code
            stats["lib_regenerated"] = "javac failed: " + (o + e)[-400:]
            build.lib_classes_dir = ""
            return ""
    stats["lib_regenerated"] = "%d units of libaldor/libfoam regenerated from their .ao with the tree's compiler" % len(files)
    build.lib_classes_dir = out
    return out

def java_route(build, foamj, text, name, q, timeout=120):
    """-> dict(stage, rc, stdout, stderr, log, commands)"""
    src = name + ".as"
    opts = ["-Q%d" % q, "-Fjava", "-Jmain", src]
    r = aldor.compile(build, {src: text}, opts, keep=True, timeout=timeout)
    cmds = ["aldor <base> " + " ".join(opts)]
    try:
        d = r["dir"]
        jf = os.path.join(d, "aldorcode", name + ".java")
        if r["rc"] != 0 or not os.path.exists(jf):
            return {"stage": "javagen", "rc": r["rc"], "stdout": "", "stderr": "", "log": (r["stdout"] + r["stderr"])[-3000:], "commands": cmds}
        cp = foamj
        c = ["javac", "-nowarn", "-J-XX:TieredStopAtLevel=1", "-J-XX:+UseSerialGC", "-cp", cp, os.path.join("aldorcode", name + ".java")]
        cmds.append(" ".join(c))
        rc, o, e = common.run(c, cwd=d, timeout=timeout * 2)
        if rc != 0:
            return {"stage": "javac", "rc": rc, "stdout": "", "stderr": "", "log": (o + e)[-3000:], "commands": cmds,
                    "java_source": open(jf, errors="replace").read()[-20000:]}
        J = jars()
        c = ["java"] + JVM + ["-cp", ":".join([".", foamj, J["foam.jar"], J["aldor.jar"]]), "aldorcode." + name]
        cmds.append(" ".join(c))
        rc, o, e = common.run(c, cwd=d, timeout=timeout)
        return {"stage": "run", "rc": rc, "stdout": o, "stderr": e[-3000:], "log": "", "commands": cmds}
    finally:
        shutil.rmtree(r["top"], ignore_errors=True)

TIMEOUT = 90      # s per compiler / JVM invocation (a normal one takes 0.1 - 3 s)

def both(build, foamj, text, name, q):
    i = aldor.run_source(build, text, route="interp", opts=["-Q%d" % q], name=name, timeout=TIMEOUT)
    if i["rc"] == "TIMEOUT":
        # the compiler itself does not finish on this program (seen at -Q9 on the unchanged tree for recursive
        # local functions): not a program of the family, the Java route is not tried
        return i, {"stage": "skipped", "rc": None, "stdout": "", "stderr": "", "log": "", "commands": []}
    j = java_route(build, foamj, text, name, q, timeout=TIMEOUT)
    if j["stage"] == "javagen" and i["rc"] not in (0, "TIMEOUT") and i["rc"] == j["rc"]:
        # both routes end with the same failure status and the Java route did not get as far as a .java file:
        # is it the compiler itself that faults on this program, whatever is asked of it?  Ask for no back end at
        # all (-Fao: the object file is written before any code generator runs).  The same fault there means the
        # Java generator was never reached - the program is not one the compiler can compile, on any route
        # (seen on the unchanged tree: `Program fault (segmentation violation)` at every -Q level, rc 1).
        src = name + ".as"
        n = aldor.compile(build, {src: text}, ["-Q%d" % q, "-Fao", src], timeout=TIMEOUT)
        nf, jf = fault_lines(n["stdout"] + n["stderr"]), fault_lines(j["log"])
        if n["rc"] == j["rc"] and nf and nf == jf and nf == fault_lines(i["stdout"] + i["stderr"]):
            j["compiler_fault_without_back_end"] = nf
    return i, j

def fault_lines(text):
    """the compiler's own fault reports in a log (not diagnostics about the source text)"""
    return [l.strip() for l in text.split("\n") if re.match(r"\s*(Program fault|Compiler bug|#\d+ \((Fatal )?Error\) (Program fault|Compiler bug))", l)]

def classify(i, j):
    """None = the routes agree; 'invalid' = the interpreter route itself rejects the program"""
    if i["rc"] != 0 and re.search(r"\[L\d+ C\d+\] #\d+ \((Fatal )?Error\)", i["stdout"]):
        return "invalid"                     # compile-time rejection: not a program of the family
    if i["rc"] == "TIMEOUT":
        return "invalid"                     # the compiler / interpreter itself does not finish: not this property's subject
    if j["stage"] == "javagen" and isinstance(i["rc"], int) and i["rc"] < 0 and j["rc"] == i["rc"]:
        return "invalid"                     # the compiler is killed by the same signal on both routes, before any back end runs
    if j.get("compiler_fault_without_back_end"):
        return "invalid"                     # the compiler faults identically with no back end selected (see both())
    if j["rc"] == "TIMEOUT": return "timeout"
    if j["stage"] == "javagen": return "javagen-fail"
    if j["stage"] == "javac": return "javac-fail"
    ic, jc = aldor.exit_class(i["rc"]), aldor.exit_class(j["rc"])
    iout = strip_interp_noise(i["stdout"])
    if ic == "ok" and jc != "ok":
        return "runtime-exception" if "Exception in thread" in j["stderr"] or "Exception" in j["stderr"] else "output-diff"
    if (ic == "ok") != (jc == "ok"): return "output-diff"
    if iout != j["stdout"]: return "output-diff"
    return None

def strip_interp_noise(out):
    """a failing interpreter run reports the fault on stdout after the program's own output
    (`Program fault ...`, `#1 (Error) ...`, `#2 (Warning) Removing file`, back trace lines `#0 0x...`);
    those lines are the failure status, not program output"""
    # compile-time remarks (`"f.as", line N: ...` / `[L1 C2] #1 (Warning) ...` blocks, each closed by an
    # empty line) precede the program's output on the interpreter route
    ls = out.split("\n")
    last = max([k for k, l in enumerate(ls) if re.match(r"\[L\d+ C\d+\] #\d+ \((Warning|Remark)\)", l)], default=-1)
    if last >= 0:
        k = last + 1
        while k < len(ls) and ls[k].strip() != "": k += 1
        out = "\n".join(ls[k + 1:])
    keep = []
    for l in out.split("\n"):
        if re.match(r"(Program fault|#\d+ \((Error|Warning|Fatal Error)\)|#\d+ (0x)?[0-9a-f]+ in <|\.\.\.$|\(Aldor error\)|Unhandled Exception|Warning: hard assertion failed)", l):
            continue
        keep.append(l)
    s = "\n".join(keep)
    s = re.sub(r"Program fault \([^)]*\)\.#\d+ \(Error\) Program fault \([^)]*\)\.\n?", "", s)
    return s

def shrink(build, foamj, text, name, q, kind, budget):
    """delete top-level lines while the same kind of difference persists"""
    lines = text.split("\n")
    rounds = 0
    while budget > 0 and rounds < 8:
        rounds += 1
        cands = [k for k, l in enumerate(lines) if l.strip() and not l.startswith("#include") and not l.startswith("import from")]
        cands = cands[:budget]
        if not cands: break
        jobs = [(both, (build, foamj, "\n".join(lines[:k] + lines[k + 1:]), name, q), {}) for k in cands]
        budget -= len(jobs)
        res = aldor.run_many(jobs, workers=16)
        hit = None
        for k, r in zip(cands, res):
            if isinstance(r, Exception): continue
            if classify(*r) == kind:
                hit = k; break
        if hit is None: break
        del lines[hit]
    return "\n".join(lines)

# signatures that root_cause() recognises from the observed behaviour alone
ROOT_SIGS = ("java|Globals.setGlobal-null", "java|javac-not-a-statement", "java|stdout-not-flushed", "java|javac-code-too-large")

def root_cause(kind, i, j):
    """differences whose cause is recognisable from what the Java route prints get the cause as their
    signature (one recorded finding per cause, whatever program shows it)"""
    if kind == "runtime-exception" and "NullPointerException" in j["stderr"] and "foamj.Globals.setGlobal" in j["stderr"]:
        return "java|Globals.setGlobal-null"
    if kind == "javac-fail" and "error: not a statement" in j["log"] and re.search(r"^\s*!.*\.toBool\(\);\s*$", j["log"], re.M):
        return "java|javac-not-a-statement"
    if kind == "javac-fail" and "error: code too large" in j["log"]:
        return "java|javac-code-too-large"       # one Java method per Aldor function / file level: > 64 KB of byte code
    if kind == "output-diff" and j["stage"] == "run":
        iout = strip_interp_noise(i["stdout"])
        if iout != j["stdout"] and (aldor.exit_class(i["rc"]) == "ok") == (aldor.exit_class(j["rc"]) == "ok") \
           and j["stdout"] == iout[:iout.rfind("\n") + 1]:
            return "java|stdout-not-flushed"       # exactly the text after the last newline is missing
    return None

def report(ctx, build, foamj, pname, text, q, kind, i, j, shrink_budget, trees=None):
    sig = root_cause(kind, i, j) or "java|%s|Q%d|%s" % (pname, q, kind)
    extra = ""
    if trees is not None and kind == "output-diff":
        # an expression program: which functions differ
        bad = jexpr.differing_functions(strip_interp_noise(i["stdout"]), j["stdout"])
        shown = [jexpr.render(trees[k]) for k in bad if 0 <= k < len(trees)]
        extra = " differing functions: " + "; ".join("f%d = %s" % (k, jexpr.render(trees[k])) for k in bad if 0 <= k < len(trees))[:600]
        shrink_budget = 0
    small = text
    if shrink_budget and ctx._listed(sig) is None:
        try:
            small = shrink(build, foamj, text, pname, q, kind, shrink_budget)
        except Exception:
            small = text
    ctx.finding(sig,
                "program %s at -Q%d: Java route %s (interpreter: rc=%s, %d bytes of output; Java: stage %s rc=%s) %s" % (
                    pname, q, kind, i["rc"], len(i["stdout"]), j["stage"], j["rc"], (j["log"] or j["stderr"])[-300:].replace("\n", " | ") + extra),
                {"kind": kind, "program": pname, "Q": q, "source": small, "original_source": text if small != text else None,
                 "commands": j["commands"] + ["aldor <base> -Q%d -Ginterp %s.as" % (q, pname)],
                 "outputs": {"interp_rc": i["rc"], "interp_stdout": i["stdout"][-4000:], "interp_stderr": i["stderr"][-1500:],
                             "java_stage": j["stage"], "java_rc": j["rc"], "java_stdout": j["stdout"][-4000:],
                             "java_stderr": j["stderr"][-3000:], "java_log": j["log"][-3000:]}})

def outside_31bit(src):
    """conservative: a MachineInteger literal above 32767 (two such factors could leave the signed 32-bit
    range) or a power with a MachineInteger base"""
    for m in re.finditer(r"\(\s*(-?\s*\d+)\s*@\s*MachineInteger\s*\)", src):
        if abs(int(m.group(1).replace(" ", ""))) > 32767: return True
    return re.search(r"@\s*MachineInteger\s*\)\s*\)*\s*\^", src) is not None

def load_dir(d):
    out = []
    if os.path.isdir(d):
        for f in sorted(os.listdir(d)):
            if f.endswith(".as"):
                out.append((f[:-3], open(os.path.join(d, f)).read()))
    return out

def header(text, key):
    m = re.search(r"^--\s*" + key + r":\s*(.*)$", text, re.M)
    return m.group(1).strip() if m else None

def run_part(ctx, build):
    stats = {"programs": 0, "runs": 0, "agree": 0, "agree_failing_status": 0, "differ": {}, "invalid": 0, "generated": 0,
             "witness": {}, "unsupported": {}}
    ctx.cov["javasearch"] = stats
    missing = [n for n, p in jars().items() if not os.path.exists(p)]
    for tool in ("java", "javac"):
        if shutil.which(tool) is None: missing.append(tool)
    if missing:
        stats["status"] = "java route unavailable: missing " + ", ".join(missing)
        ctx.assumptions.append(stats["status"])
        return stats
    foamj = jmap.foamj_classes(build)
    lib = lib_classes(build, foamj, stats)
    if lib == "":
        ctx.violation("java|library-javac-fail", "the Java generated by the tree's compiler for the library units does not compile: " + stats["lib_regenerated"],
                      {"kind": "javac-fail", "log": stats["lib_regenerated"]}, found_input=False)
    elif lib:
        foamj = foamj + ":" + lib          # class path prefix used by javac and java from here on
    # one smoke run decides whether the route works at all in this tree
    hello = '#include "aldor"\n#include "aldorio"\nimport from MachineInteger;\nstdout << "hello " << 1+2 << newline;\n'
    i, j = both(build, foamj, hello, "jhello", 1)
    if classify(i, j) is not None or j["stdout"] != "hello 3\n":
        # the interpreter must work for this to be the Java route's fault
        if i["rc"] == 0 and i["stdout"] == "hello 3\n":
            report(ctx, build, foamj, "jhello", hello, 1, classify(i, j) or "output-diff", i, j, 0)
        else:
            stats["status"] = "java route unavailable: the interpreter route fails on hello-world (%s)" % (i["stdout"] + i["stderr"])[-200:]
        return stats
    stats["status"] = "java route available (foamj from the tree's sources; library classes regenerated in front of foam.jar, aldor.jar)"
    thorough = ctx.tier == "thorough"
    progs = load_dir(os.path.join(VERIF, "corpus", "java"))
    # generated programs, when the MiniAldor layer exists.  Features: big integers, booleans, strings,
    # lists, records, closures, loops, early exit/return, overloading, uncaught exceptions.  Left out on
    # purpose: "mi" (its literal pool goes beyond 31 bits, where the routes differ by construction) and
    # "exn" (try/catch: the Java back end stops with `Java not implemented: Tag: Catch`).
    expected = {}
    try:
        from vlib import miniald
        asts = miniald.generate(ctx.rng, 60 if thorough else 12, features=GEN_FEATURES)
        for k, d in enumerate(miniald.model(asts)):
            if not d.get("ok") or not d.get("braced") or re.search(r"\btry\b", d["braced"]):
                stats["generated_rejected"] = stats.get("generated_rejected", 0) + 1
                continue
            if outside_31bit(d["braced"]):
                # machine integers also occur as list indices and exponents; their literal pool reaches 2^63
                stats["generated_outside_31bit_region"] = stats.get("generated_outside_31bit_region", 0) + 1
                continue
            progs.append(("gen%03d" % k, d["braced"]))
            expected["gen%03d" % k] = (d.get("stdout", ""), d.get("exit", ""))
        stats["generated"] = len(expected)
    except Exception as e:                      # noqa: the layer is optional
        stats["generated_skipped"] = "%s: %s" % (type(e).__name__, str(e)[:120])
    # expression trees (checks/parts/jexpr.py): the systematic family (every operator under every operator, both
    # sides, two leaf variants; the same in every run) and seeded random trees to depth 4
    exprmeta = {}
    etrees = jexpr.systematic(full=thorough)
    rtrees = jexpr.random_trees(ctx.rng, 160 if thorough else 48)
    for name, src, trees in jexpr.programs(etrees, prefix="expr") + jexpr.programs(rtrees, prefix="rexp"):
        progs.append((name, src)); exprmeta[name] = trees
    stats["expression_trees"] = {"systematic": len(etrees), "random": len(rtrees), "programs": len(exprmeta)}
    stats["programs"] = len(progs)
    jobs, keys = [], []
    def levels_of(pname, text, k):
        if header(text, "Qs"): return [int(x) for x in header(text, "Qs").split()]
        if pname in exprmeta and not thorough:
            # nested builtin expressions exist from -Q3 on; at -Q1 the operators are library calls: every 4th program
            return QS if k % 4 == 0 else QS[1:]
        return QS
    for k, (pname, text) in enumerate(progs):
        for q in levels_of(pname, text, k):
            jobs.append((both, (build, foamj, text, pname, q), {})); keys.append((pname, text, q))
    res = aldor.run_many(jobs, workers=16)
    budget = 120 if thorough else 40
    for (pname, text, q), r in zip(keys, res):
        stats["runs"] += 1
        if isinstance(r, Exception):
            ctx.violation("java|%s|Q%d|check-error" % (pname, q), "running the routes raised %r" % (r,), {"kind": "check-error"}, found_input=False)
            continue
        i, j = r
        kind = classify(i, j)
        if kind == "timeout":
            # the interpreter finished and the Java route did not; a loaded machine? once more, alone
            i, j = both(build, foamj, text, pname, q)
            kind = classify(i, j)
        if kind is None:
            stats["agree"] += 1
            if aldor.exit_class(i["rc"]) != "ok": stats["agree_failing_status"] += 1
            if pname in expected and expected[pname][0] != j["stdout"]:
                stats["agree_but_not_layerA"] = stats.get("agree_but_not_layerA", 0) + 1   # C01's subject, not C12's
            if stats["runs"] % 13 == 1:
                ctx.sample({"module": "javasearch", "program": pname, "Q": q, "rc": j["rc"], "stdout": j["stdout"][:200]})
            continue
        if kind == "invalid":
            stats["invalid"] += 1
            ctx.notes.append("javasearch: program %s at Q%d is not in the family: %s" % (
                pname, q, "the compiler does not finish within %d s" % TIMEOUT if i["rc"] == "TIMEOUT" else
                ("the compiler dies with signal %d on both routes" % -i["rc"] if isinstance(i["rc"], int) and i["rc"] < 0 else "rejected: " + i["stdout"][-200:])))
            continue
        stats["differ"][kind] = stats["differ"].get(kind, 0) + 1
        report(ctx, build, foamj, pname, text, q, kind, i, j, budget, trees=exprmeta.get(pname))
        budget = max(0, budget - 40)
    # are the library jars shipped in the tree current?  (build products: a stale jar is reported in the
    # coverage, it is not a defect of the code)
    probes = [(n, t) for n, t in progs if header(t, "stale-jar-probe")]
    if lib and probes:
        plain = jmap.foamj_classes(build)
        res = aldor.run_many([(both, (build, plain, t, n, 1), {}) for n, t in probes], workers=16)
        bad = [n for (n, t), r in zip(probes, res) if not isinstance(r, Exception) and classify(*r) not in (None, "invalid")]
        stats["shipped_library_jars"] = ("STALE: with foam.jar/aldor.jar as found in the tree (without the regenerated classes) %s differ from the "
                                         "interpreter at -Q1; rebuild the jars (lib/aldor, lib/libfoam: make)" % ", ".join(bad)) if bad else "current"
    # programs that are expected to differ
    wit = load_dir(os.path.join(VERIF, "corpus", "java", "witness"))
    def levels(text):
        if header(text, "Qs"): return [int(x) for x in header(text, "Qs").split()]
        return [int(header(text, "Q") or 1)]
    wkeys = [(pname, text, q) for pname, text in wit for q in levels(text)]
    jobs = [(both, (build, foamj, text, pname, q), {}) for pname, text, q in wkeys]
    for (pname, text, q), r in zip(wkeys, aldor.run_many(jobs, workers=16)):
        what = header(text, "witness") or "?"
        wname = "%s@Q%d" % (pname, q)
        if isinstance(r, Exception):
            stats["witness"][wname] = "error %r" % (r,); continue
        i, j = r
        kind = classify(i, j)
        desc = "%s: interp rc=%s %r / java stage=%s rc=%s %r" % (kind or "agree", i["rc"], strip_interp_noise(i["stdout"])[-120:], j["stage"], j["rc"],
                                                                 (j["stdout"] or j["log"] or j["stderr"])[-160:])
        stats["witness"][wname] = desc
        stats["runs"] += 1
        if what == "width":
            if kind is None:
                ctx.notes.append("javasearch: width witness %s no longer differs (%s)" % (wname, desc))
        elif what.startswith("unsupported"):
            stats["unsupported"][wname] = "%s -> %s" % (what, desc)
        elif kind is not None and kind != "invalid":
            rc_sig = root_cause(kind, i, j)
            if what in ROOT_SIGS and rc_sig != what:
                # the difference is NOT (only) the recorded one: e.g. more than the unterminated tail is missing
                report(ctx, build, foamj, pname, text, q, kind, i, j, 0)
                continue
            ctx.finding(what, "witness program %s at -Q%d shows the recorded defect on the real routes: %s" % (pname, q, desc),
                        {"kind": kind, "program": pname, "Q": q, "source": text,
                         "commands": j["commands"] + ["aldor <base> -Q%d -Ginterp %s.as" % (q, pname)],
                         "outputs": {"interp_rc": i["rc"], "interp_stdout": i["stdout"][-2000:], "java_stage": j["stage"], "java_rc": j["rc"],
                                     "java_stdout": j["stdout"][-2000:], "java_stderr": j["stderr"][-2000:], "java_log": j["log"][-2000:]}})
        else:
            ctx.notes.append("javasearch: witness %s for %s no longer differs (%s)" % (wname, what, desc))
    ctx.cov["evaluations"] += stats["runs"]
    ctx.cov["distinct_nontrivial"] += stats["programs"]
    return stats
