"""part `table` (C20): table.c vs Model/Table.lean.  Tie: hand model + correspondence (H).

One request line = one operation history on a fresh table (`H <m> op op ...`, hash k mod m);
the answer is the `;`-joined list of results, so lines are independent.  The python oracle is a
dict; it is evaluated on the implementation's answers (lookups, sizes, iteration, bucket layout)."""
import itertools, os
from vlib import common
from vlib.common import VERIF

NAME = "table"
BUILD_TARGETS = ["AldorVerif.Props.C20Table"]
SOURCES = ["table.c", "table.h", "util.c"]
MODELLED = ("table.c: tblNew tblNew0 tblSize BUCKET_SEARCH(move-to-front) tblElt tblSetElt tblDrop tblEnlarge "
            "tblNMap tblRemoveIf tblCopy _tblITER _tblSTEP tblITER/tblMORE/tblSTEP/tblKEY/tblELT; util.c: binPrime cielLg "
            "(not: tblFree tblFreeDeeply tblPrint tblColumnPrint; hashFun==0 / eqFun==0 variants)")
THEOREMS = [("AldorVerif.Props.C20Table", "AldorVerif.Table." + t) for t in (
    "table_refines_map", "tblElt_spec", "tblSetElt_spec", "tblDrop_spec", "tblIter_spec",
    "tblEnlarge_spec", "tblNMap_spec", "tblCopy_spec", "tblRemoveIf_spec", "tblNew_spec", "inv_reachable")]

DFLT = 4294967295
PRIMES = [7, 13, 31, 61, 127, 251, 509, 1021, 2039, 4093, 8191, 16381, 32749, 65521]
# tblSetElt enlarges when count > 5*buckc: the insertion making count = 5*buckc+1
THRESHOLDS = [5 * p + 1 for p in PRIMES]

# ------------------------------------------------------------------ generators
def h_line(m, ops):
    return "H %d %s" % (m, " ".join(ops))

def gen_exhaustive(maxlen):
    """every history over keys {0,1,2}, ops set/get/drop, of length <= maxlen, for m = 1 and 2;
    with m=1 all keys share hash and bucket, with m=2 keys 0 and 2 do"""
    alpha = []
    for k in (0, 1, 2):
        alpha += ["s:%d:%d" % (k, k + 5), "g:%d" % k, "d:%d" % k]
    out = []
    for m in (1, 2):
        for n in range(0, maxlen + 1):
            for seq in itertools.product(alpha, repeat=n):
                out.append(h_line(m, list(seq) + ["z", "i", "b"]))
    return out

def gen_chain_deletes():
    """build one chain of length c (keys congruent mod m, so equal hash, or distinct hash in the
    same bucket), optionally reorder it by a lookup, then delete the slot at every position"""
    out = []
    for c in (1, 2, 3, 4, 6):
        for mode in ("samehash", "samebucket"):
            if mode == "samehash":
                m = 5; keys = [3 + 5 * j for j in range(c)]
            else:
                m = 7 * 1000; keys = [3 + 7 * j for j in range(c)]      # distinct hashes, bucket 3 of 7
            base = ["s:%d:%d" % (k, 100 + k) for k in keys]
            for pos in range(c):
                for touch in [None] + list(range(c)):
                    ops = list(base)
                    if touch is not None:
                        ops.append("g:%d" % keys[touch])
                    ops += ["b", "d:%d" % keys[pos], "b", "i", "z"]
                    ops += ["g:%d" % k for k in keys]
                    ops += ["d:%d" % keys[pos], "z", "s:%d:1" % keys[pos], "b"]
                    out.append(h_line(m, ops))
    return out

def gen_thresholds(limit):
    """cross every resize threshold below `limit` exactly: T-1 inserts, layout, one more, layout;
    updates of present keys at the boundary must not enlarge; drops never shrink"""
    out = []
    for T in THRESHOLDS:
        if T > limit: break
        for (m, stride) in ((1 << 31, 1), (1 << 31, 7 * 13), (97, 1), (T + 3, 1)):
            if T > 700 and m == 97: continue              # chains of length T/97 only for the small ones
            if T > 20000 and stride != 1: continue
            keys = [1 + stride * j for j in range(T)]
            ops = ["s:%d:%d" % (k, k % 1000) for k in keys[:T - 1]]
            ops += ["z", "s:%d:9" % keys[0], "s:%d:9" % keys[T - 2], "z"]
            if T <= 1300: ops.append("b")
            ops += ["s:%d:%d" % (keys[T - 1], 5), "z"]
            if T <= 1300: ops.append("b")
            ops += ["g:%d" % keys[0], "g:%d" % keys[T - 1], "g:%d" % (keys[T - 1] + stride)]
            # drop below the threshold again and come back: the second crossing must not enlarge again
            ops += ["d:%d" % k for k in keys[:5]] + ["z"] + ["s:%d:1" % k for k in keys[:5]] + ["z"]
            if T <= 1300: ops += ["i", "b"]
            else: ops += ["g:%d" % k for k in keys[::max(1, T // 50)]]
            out.append(h_line(m, ops))
    return out

def gen_random(rng, nops, m, keyrange, stride=1, dump_every=0, p_set=0.5, p_get=0.25, p_drop=0.2):
    ops = []
    for j in range(nops):
        r = rng.random()
        k = stride * rng.randrange(keyrange)
        if r < p_set:
            ops.append("s:%d:%d" % (k, rng.randrange(1000)))
        elif r < p_set + p_get:
            ops.append("g:%d" % k)
        elif r < p_set + p_get + p_drop:
            ops.append("d:%d" % k)
        else:
            ops.append(rng.choice(("z", "z", "m", "r", "c")))
        if dump_every and j % dump_every == dump_every - 1:
            ops += ["i", "b"]
    ops += ["z", "i", "b"]
    return h_line(m, ops)

def gen_big(rng, nsteps, m):
    """one long history: grow through the thresholds, shrink to almost nothing, grow again"""
    ops = []
    live = []
    nxt = 0
    phase_up = int(nsteps * 0.86)
    for j in range(nsteps):
        if j < phase_up:
            r = rng.random()
            if r < 0.97 or not live:
                k = nxt * 3 + 1; nxt += 1; live.append(k)
                ops.append("s:%d:%d" % (k, k % 997))
            elif r < 0.985:
                ops.append("g:%d" % rng.choice(live))
            else:
                ops.append("s:%d:%d" % (rng.choice(live), rng.randrange(997)))
        elif j < phase_up + int(nsteps * 0.08):
            if live:
                i = rng.randrange(len(live)); live[i], live[-1] = live[-1], live[i]
                ops.append("d:%d" % live.pop())
            else:
                ops.append("z")
        else:
            r = rng.random()
            if r < 0.5:
                k = nxt * 3 + 1; nxt += 1; live.append(k); ops.append("s:%d:7" % k)
            elif r < 0.8 and live:
                ops.append("g:%d" % rng.choice(live))
            else:
                ops.append("g:%d" % (nxt * 3 + 2))
        if j in (34, 35, 36, 64, 65, 66) or (j % 9973 == 0):
            ops.append("z")
    ops += ["z"] + ["g:%d" % k for k in live[:200]] + ["z"]
    return h_line(m, ops), len(ops)

# ------------------------------------------------------------------ oracle
def parse_pairs(s):
    if s == "": return []
    return [tuple(int(x) for x in p.split("=")) for p in s.split(",")]

def oracle(line, answer):
    """evaluate the finite-map property on an answer line; returns (ok, index of first bad op, why)"""
    toks = line.split()
    m = int(toks[1]); ops = toks[2:]
    res = answer.split(";") if ops else []
    if len(res) != len(ops) and not (len(ops) == 0 and answer == ""):
        return False, min(len(res), len(ops)) - 1, "number of results %d != number of ops %d" % (len(res), len(ops))
    d = {}
    for j, (op, r) in enumerate(zip(ops, res)):
        f = op.split(":")
        try:
            if f[0] == "s":
                k, e = int(f[1]), int(f[2]); d[k] = e
                if int(r) != e: return False, j, "tblSetElt returned %s, stored %d" % (r, e)
            elif f[0] == "g":
                k = int(f[1]); want = d.get(k, DFLT)
                if int(r) != want: return False, j, "tblElt(%d) = %s, last stored %s" % (k, r, want if k in d else "nothing (default)")
            elif f[0] == "d":
                d.pop(int(f[1]), None)
                if int(r) != len(d): return False, j, "size after drop %s, map has %d entries" % (r, len(d))
            elif f[0] == "z":
                if int(r) != len(d): return False, j, "tblSize = %s, map has %d entries" % (r, len(d))
            elif f[0] == "i":
                ps = parse_pairs(r)
                if len(ps) != len(d) or len({k for k, _ in ps}) != len(ps) or dict(ps) != d:
                    return False, j, "iteration does not visit each entry exactly once (%d visited, %d entries)" % (len(ps), len(d))
            elif f[0] == "b":
                parts = r.split("|")
                buckc = int(parts[0]); seen = {}
                last = -1
                for p in parts[1:]:
                    if p == "": continue
                    idx, body = p.split(":")
                    idx = int(idx)
                    if not (last < idx < buckc): return False, j, "bucket index %d out of order/range" % idx
                    last = idx
                    for k, e in parse_pairs(body):
                        if k in seen: return False, j, "key %d appears twice in the table" % k
                        if (k % m) % buckc != idx: return False, j, "key %d (hash %d) lives in bucket %d of %d" % (k, k % m, idx, buckc)
                        seen[k] = e
                if seen != d: return False, j, "bucket contents differ from the map (%d vs %d entries)" % (len(seen), len(d))
            elif f[0] == "m":
                d = {k: 2 * e + 1 for k, e in d.items()}
            elif f[0] == "r":
                d = {k: (0 if (e != 0 and e % 3 == 0) else e) for k, e in d.items()}
            elif f[0] == "c":
                pass
            else:
                if r != "bad-op": return False, j, "unknown op answered %s" % r
        except ValueError as ex:
            return False, j, "unparsable result %r (%s)" % (r[:80], ex)
    return True, -1, ""

def first_diff(a, b):
    ra, rb = a.split(";"), b.split(";")
    for j in range(min(len(ra), len(rb))):
        if ra[j] != rb[j]: return j
    return min(len(ra), len(rb))

def truncate(line, j):
    toks = line.split()
    return " ".join(toks[:2 + j + 1] + ["z", "i", "b"])

def merge_tags(hist, tagline):
    for t in tagline.split():
        if "=" in t:
            k, v = t.rsplit("=", 1)
            hist[k] = hist.get(k, 0) + int(v)

def run_part(ctx, build):
    exe = build.cc_driver("table_drv", os.path.join(VERIF, "harness", "table_drv.c"))
    rng = ctx.rng
    thorough = ctx.tier == "thorough"
    lines = []
    corp = os.path.join(VERIF, "corpus", "table")
    if os.path.isdir(corp):
        for f in sorted(os.listdir(corp)):
            lines += [l.strip() for l in open(os.path.join(corp, f)) if l.strip() and not l.startswith("#")]
    ncorpus = len(lines)
    ex = gen_exhaustive(4 if not thorough else 5)
    if not thorough and len(ex) > 30000:
        ex = ex[:1700] + rng.sample(ex[1700:], 20000)
    lines += ex
    lines += gen_chain_deletes()
    lines += gen_thresholds(11000 if not thorough else 170000)
    nexh = len(lines) - ncorpus
    scale = 1 if not thorough else 10
    # collision-heavy: tiny m (all keys share few hashes), small key range (many hits)
    for _ in range(4000 * scale):
        m = rng.choice((1, 2, 3, 5, 7, 14, 91))
        lines.append(gen_random(rng, rng.randint(5, 120), m, rng.choice((4, 8, 40, 200)), dump_every=rng.choice((0, 0, 10))))
    # distinct hashes, same bucket through several enlargements (stride = 7*13*31)
    for _ in range(200 * scale):
        lines.append(gen_random(rng, rng.randint(50, 400), 1 << 31, 300, stride=7 * 13 * 31, dump_every=rng.choice((0, 50))))
    # growth and shrink with ordinary hashing, several thresholds
    for _ in range(60 * scale):
        lines.append(gen_random(rng, rng.randint(300, 3000), rng.choice((1 << 31, 1009, 64)), rng.choice((500, 5000)),
                                p_set=0.6, p_get=0.2, p_drop=0.18, dump_every=rng.choice((0, 0, 500))))
    # long histories up to 10^5 steps
    nbig = 0
    for nsteps, m in ([(100000, 1 << 31), (100000, 1009)] if not thorough else
                      [(100000, 1 << 31), (100000, 1009), (100000, 65537), (100000, 4099), (60000, 1 << 31), (30000, 7 * 13 * 31)]):
        l, n = gen_big(rng, nsteps, m)
        lines.append(l); nbig = max(nbig, n)
    c = common.run_impl_lines(exe, lines)
    m, tags = common.split_model(common.run_model("table", "\n".join(lines) + "\n"))
    assert len(m) == len(lines), (len(m), len(lines))
    stats = {"lines": len(lines), "corpus": ncorpus, "exhaustive_and_directed": nexh, "ops": 0, "longest_history": nbig,
             "mismatch": 0, "faults": 0, "oracle_checked_ops": 0, "distinct_results": 0}
    hist = {}
    seen = set()
    for k, ln in enumerate(lines):
        co = c[k] if k < len(c) else "MISSING"
        mo = m[k]
        merge_tags(hist, tags[k])
        nops = len(ln.split()) - 2
        stats["ops"] += nops
        seen.add(hash(co))
        short = ln if len(ln) < 2000 else ln[:2000] + " ...(%d ops)" % nops
        if co.startswith("FAULT") or co in ("MISSING", "SKIPPED"):
            stats["faults"] += 1
            ctx.finding("table|fault", "table.c faults (%s) on: %s" % (co, short),
                        {"kind": "impl-fault", "driver": "harness/table_drv.c", "line": ln, "impl": co, "model": mo[:2000]})
            continue
        ok, j, why = oracle(ln, co)
        stats["oracle_checked_ops"] += nops
        if co != mo:
            stats["mismatch"] += 1
            jd = first_diff(co, mo)
            if not ok:
                tl = truncate(ln, j)
                ctx.finding("table|finite-map|" + ln.split()[2 + j].split(":")[0],
                            "table.c does not behave as a finite map: op %d (%s) of `%s`: %s" % (j, ln.split()[2 + j], short, why),
                            {"kind": "impl-violates-property", "line": tl, "op_index": j, "why": why,
                             "impl": co.split(";")[j][:500], "model": (mo.split(";") + [""] * (j + 1))[j][:500],
                             "replay_cmd": "echo '<line>' | <table_drv built by ./check C20>"})
            else:
                tl = truncate(ln, jd)
                ctx.corr_broken.append(("table", tl if len(tl) < 4000 else short, (co.split(";") + [""] * (jd + 1))[jd][:300],
                                        (mo.split(";") + [""] * (jd + 1))[jd][:300]))
        elif not ok:
            ctx.violation("table|model-and-impl-wrong|" + ln.split()[2 + j].split(":")[0],
                          "implementation and model agree on `%s` but op %d: %s (contradicts table_refines_map: model/driver defect)" % (short, j, why),
                          {"kind": "inconsistent", "line": truncate(ln, j), "why": why})
        if k % 1500 == 11:
            ctx.sample({"module": "table", "request": short[:300], "impl": co[:300], "model": mo[:300], "tags": tags[k][:300]})
    stats["distinct_results"] = len(seen)
    stats["branch_tags"] = dict(sorted(hist.items()))
    ctx.cov["table"] = stats
    ctx.cov["evaluations"] += stats["ops"]
    ctx.cov["distinct_nontrivial"] += len(seen)
    return stats
