"""part `replcont` (C13): scan.c:scanIsContinued vs Model/Repl.lean:contStep.
Tie: hand model + correspondence (H).  One request = one session (a list of lines, hex encoded)
answered from the initial state; the C driver forks per request because the function's state
lives in function-local statics.  Executable property on the implementation's answers: a form
laid out by the renderer (the search's templates, and random token lines satisfying the
model's `wellLaidOut`) is offered to the parser exactly at its last line (answers 1…10)."""
import os
from vlib import common
from vlib.common import VERIF

NAME = "replcont"
BUILD_TARGETS = ["AldorVerif.Props.C13"]
SOURCES = ["scan.c", "scan.h", "include.c"]
MODELLED = ("scan.c: scanIsContinued (all of it; the interactive `...` prompt is output only); include.c:inclLine's "
            "do-while over it as readForm/splitForms; the session (axlcomp.c:compGLoopEval, fintphase.c:fintWrap, "
            "scobind.c:scoSetUndoState/scobindUndo, incremental stab) only as the abstract replStep/batch, tied by the "
            "end-to-end search in part replsearch")
THEOREMS = [("AldorVerif.Props.C13", "AldorVerif.Repl." + t) for t in (
    "repl_eq_batch", "repl_eq_batch_from", "rejected_is_noop", "rejected_is_noop_bad", "interleave_rejected",
    "drop_rejected", "loop_markers_eq_batch_of_kept", "diagnostics_count",
    "topLine_invariant", "scan_render", "contStep_line", "isContinued_balanced", "splitForms_balanced")]

def enc(line):
    if line is None:
        return "-"
    b = line.encode("latin-1") if isinstance(line, str) else line
    return b.hex() if b else "."

def request(lines):
    return "S " + " ".join(enc(l) for l in lines) if lines else "S"

# ------------------------------------------------------------------------------- generators
ALPHA = ["(", ")", "{", "}", '"', "_", "=", ";", " ", "a", "#", "\t", "-"]

def exhaustive(maxlen, alpha=ALPHA):
    words = [""]
    level = [""]
    for _ in range(maxlen):
        level = [w + c for w in level for c in alpha]
        words += level
    return words

PIECES = ["(", ")", "{", "}", "[", "]", '"', "_", '_"', "__", "_(", "_)", "==", "= =", "=", ":=", ";", " ", "  ", "\t", "a", "x1",
          "--", "-- (", "-- }", "++ {", "#", "'", "'('", '"("', '")"', '"_""', '"_)"', "f(", "g{", "+->", "==>", " == ", "== {", "=="
          , " ==  ", "\xe9", "\x80", "\xff", "\x01", ",", ".", "=_=", "=\"=\"", "if", "then {", "} else {", "\\"]

def random_line(rng):
    r = rng.random()
    n = rng.choice((0, 1, 1, 2, 3, 4, 6, 9, 14))
    s = "".join(rng.choice(PIECES) for _ in range(n))
    if r < 0.25:
        s = rng.choice((" ", "  ", "\t", "    ")) + s
    if rng.random() < 0.2:
        s += rng.choice(("==", " ==", "== ", "==  ;", "== {", "= =", "=", "==="))
    if rng.random() < 0.93:
        s += "\n"
    return s

def random_session(rng):
    k = rng.choice((1, 1, 2, 2, 3, 4, 6, 8))
    ls = [random_line(rng) for _ in range(k)]
    if rng.random() < 0.03:
        ls.insert(rng.randint(0, len(ls)), None)
    return ls

# python mirror of Model/Repl.lean's token renderer and `wellLaidOut`
ORD = [c for c in "abxyz019 ;=:,.+-*<>/[]'#\t\\@$%&|~^?!\x80\xe9" ]
STRCH = [c for c in "ab (){};=#- \t\\[]" ]

def rand_tok(rng, depth):
    r = rng.random()
    if r < 0.50: return ("ord", rng.choice(ORD))
    if r < 0.56: return ("esc", rng.choice(['"', "_", "(", ")", "{", "}", "a", "=", " "]))
    if r < 0.70:
        body = []
        for _ in range(rng.randint(0, 5)):
            body.append(("esc", rng.choice(['"', "_", "a", ")"])) if rng.random() < 0.25 else ("plain", rng.choice(STRCH)))
        return ("str", body)
    if r < 0.86 or depth <= 0: return ("opn", rng.random() < 0.5)
    return ("cls", rng.random() < 0.5)

def render_tok(t):
    k, v = t
    if k == "ord": return v
    if k == "esc": return "_" + v
    if k == "str": return '"' + "".join(("_" + c) if kk == "esc" else c for kk, c in v) + '"'
    if k == "opn": return "{" if v else "("
    return "}" if v else ")"

def net(ts):
    return sum(1 if k == "opn" else -1 if k == "cls" else 0 for k, _ in ts)

def deq_t(ts):
    b = False
    for i, (k, v) in enumerate(ts):
        if k == "ord":
            if v == ";" or v == " ": pass
            elif v == "=":
                if i + 1 < len(ts) and ts[i + 1] == ("ord", "="): b = True
            else: b = False
        elif k == "str": b = False
    return b

def starts_blank(ts): return bool(ts) and ts[0][0] == "ord" and ts[0][1] in " \t"
def starts_hash(ts): return bool(ts) and ts[0][0] == "ord" and ts[0][1] == "#"

def well_laid_out(lines):
    d = 0
    if not lines: return False
    for i, l in enumerate(lines):
        if not l: return False
        if d == 0 and starts_hash(l): return False
        d += net(l)
        last = i == len(lines) - 1
        if not last and d <= 0: return False
        if last and (d != 0 or starts_blank(l) or deq_t(l)): return False
    return True

def rand_laid_out(rng):
    """token lines satisfying well_laid_out, by construction + filter"""
    for _ in range(200):
        n = rng.choice((1, 1, 2, 3, 4, 5))
        lines = []; d = 0
        for i in range(n):
            l = []
            for _ in range(rng.randint(1, 8)):
                t = rand_tok(rng, d + net(l))
                l.append(t)
            if i == n - 1:
                # close what is open, at the front so that the line starts in column one
                l = [("cls", rng.random() < 0.5) for _ in range(max(0, d + net(l)))] + l
                if d + net(l) != 0:
                    continue
            elif d + net(l) <= 0:
                l.append(("opn", rng.random() < 0.5))
                if d + net(l) <= 0:
                    l = [("opn", True)] * (1 - (d + net(l))) + l
            d += net(l)
            lines.append(l)
        if well_laid_out(lines):
            return lines
    return [[("ord", "a")]]

def load_corpus():
    """corpus/replcont/*.txt: sessions separated by a line `%%`; `\\0` in a line marks the NULL request"""
    out = []
    d = os.path.join(VERIF, "corpus", "replcont")
    if os.path.isdir(d):
        for f in sorted(os.listdir(d)):
            if not f.endswith(".txt"):
                continue
            cur = []
            for raw in open(os.path.join(d, f), encoding="latin-1"):
                if raw.rstrip("\n") == "%%":
                    out.append(cur); cur = []
                elif raw.rstrip("\n") == "\\0":
                    cur.append(None)
                else:
                    cur.append(raw)
            if cur:
                out.append(cur)
    return out

def form_pattern(forms):
    """expected answers for a session of whole forms: 1 on every line of a form but its last"""
    s = ""
    for t in forms:
        k = t.count("\n")
        s += "1" * (k - 1) + "0"
    return s

STATICS = ("unmatchedBraces", "isDefining", "inStringLiteral", "sawEscape", "topLine")

def build_driver(build):
    """the C driver, linked with a copy of the build's scan.o whose function-local statics are
    renamed and made global (so that they can be reset per request); falls back to the forking
    driver when objcopy/nm are missing or the symbols are not found"""
    src = os.path.join(VERIF, "harness", "scancont_drv.c")
    try:
        obj = os.path.join(build.src, "scan.o")
        if not os.path.exists(obj):
            raise RuntimeError("no scan.o")
        rc, out, err = common.run(["nm", obj])
        if rc != 0:
            raise RuntimeError("nm failed")
        found = {}
        for l in out.split("\n"):
            parts = l.split()
            if len(parts) == 3 and "." in parts[2]:
                base, _, suf = parts[2].rpartition(".")
                if base in STATICS and suf.isdigit():
                    if base in found:
                        raise RuntimeError("ambiguous static " + base)
                    found[base] = parts[2]
        if not all(s in found for s in STATICS[:4]):
            raise RuntimeError("statics not found: %s" % found)
        mod = os.path.join(build.top, "scan_sic.o")
        cmd = ["objcopy"]
        for base, sym in found.items():
            cmd += ["--redefine-sym", "%s=sic_%s" % (sym, base), "--globalize-symbol", "sic_" + base]
        rc, out, err = common.run(cmd + [obj, mod])
        if rc != 0:
            raise RuntimeError("objcopy failed: " + err)
        defs = ["SIC_RESET"] + (["SIC_HAVE_TOPLINE"] if "topLine" in found else [])
        return build.cc_driver("scancont_drv", src, extra_flags=[mod], defines=defs), "reset"
    except (RuntimeError, OSError, common.BuildError):
        return build.cc_driver("scancont_drv", src), "fork"

def run_part(ctx, build):
    from checks.parts import replsearch
    exe, mode = build_driver(build)
    rng = ctx.rng
    thorough = ctx.tier == "thorough"
    reqs = []        # (request line, class, expected pattern or None, description)
    for s in load_corpus():
        reqs.append((request(s), "corpus", None, s))
    ncorpus = len(reqs)
    # exhaustive small sessions
    w4 = exhaustive(4 if not thorough else 5)
    for w in w4:
        reqs.append((request([w + "\n"]), "ex1", None, None))
    w2 = exhaustive(2)
    for a in w2:
        for b in w2:
            reqs.append((request([a + "\n", b + "\n"]), "ex2", None, None))
    w1 = exhaustive(1, ALPHA[:10])
    for a in w1:
        for b in w1:
            for c in w1:
                reqs.append((request([a + "\n", " " + b + "\n", c + "\n"]), "ex3", None, None))
    nex = len(reqs) - ncorpus
    # random sessions
    for _ in range(60000 if not thorough else 600000):
        reqs.append((request(random_session(rng)), "random", None, None))
    # whole forms of the search's templates: offered exactly at the last line
    progs = replsearch.template_programs(rng, 4 if not thorough else 20)
    for p in progs:
        forms = [t for _, t in replsearch.HEADER + p.forms]
        lines = [l + "\n" for t in forms for l in t.split("\n")[:-1]]
        reqs.append((request(lines), "template", form_pattern(forms), p.name))
        # with catalogue forms in between (they are whole forms too)
        f2 = replsearch.inject(rng, p, list(replsearch.HEADER), [None, None, None], 1)
        forms = [t for _, t in f2]
        lines = [l + "\n" for t in forms for l in t.split("\n")[:-1]]
        reqs.append((request(lines), "template", form_pattern(forms), p.name + "+errors"))
    # random well laid out token forms (the hypothesis class of isContinued_balanced), several per session
    for _ in range(20000 if not thorough else 200000):
        forms = [rand_laid_out(rng) for _ in range(rng.randint(1, 3))]
        lines = [("".join(render_tok(t) for t in l) + "\n") for f in forms for l in f]
        pat = "".join("1" * (len(f) - 1) + "0" for f in forms)
        reqs.append((request(lines), "laidout", pat, None))
    lines = [r[0] for r in reqs]
    c = common.run_impl_lines(exe, lines)
    m, tags = common.split_model(common.run_model("repl", "\n".join(lines) + "\n"))
    assert len(m) == len(lines), (len(m), len(lines))
    stats = {"driver_mode": mode, "lines": len(lines), "corpus": ncorpus, "exhaustive": nex, "mismatch": 0, "faults": 0,
             "pattern_checked": 0, "answers": 0, "continued": 0, "distinct_results": 0,
             "classes": {}}
    seen = set()
    for k, (ln, cls, pat, desc) in enumerate(reqs):
        co = c[k] if k < len(c) else "MISSING"
        mo = m[k]
        seen.add(co)
        stats["classes"][cls] = stats["classes"].get(cls, 0) + 1
        if co.startswith("FAULT") or co in ("MISSING", "SKIPPED"):
            stats["faults"] += 1
            ctx.finding("replcont|fault", "scanIsContinued faults (%s) on: %s" % (co, ln[:300]),
                        {"kind": "impl-fault", "driver": "harness/scancont_drv.c", "line": ln, "impl": co, "model": mo})
            continue
        stats["answers"] += len(co); stats["continued"] += co.count("1")
        impl_ok = True
        if pat is not None:
            stats["pattern_checked"] += 1
            impl_ok = (co == pat)
        if co != mo:
            stats["mismatch"] += 1
            if not impl_ok:
                ctx.finding("replcont|form-not-offered-at-its-last-line|" + cls,
                            "scanIsContinued does not hand a laid-out form to the parser exactly at its last line (%s %s): answers %s, expected %s (model: %s)" % (
                                cls, desc or "", co, pat, mo),
                            {"kind": "impl-violates-property", "line": ln, "impl": co, "model": mo, "expected": pat,
                             "replay_cmd": "echo '%s' | <scancont_drv built by ./check C13>" % ln[:2000]})
            else:
                ctx.corr_broken.append((NAME, ln, co, mo))
        elif not impl_ok:
            ctx.violation("replcont|model-and-impl-off-pattern|" + cls,
                          "implementation and model agree (%s) but a form the renderer calls well laid out is not offered at its last line (expected %s): contradicts isContinued_balanced or the python mirror of wellLaidOut (%s %s)" % (co, pat, cls, desc or ""),
                          {"kind": "inconsistent", "line": ln, "impl": co, "expected": pat})
        if k % 4000 == 11:
            ctx.sample({"module": NAME, "request": ln[:200], "impl": co, "model": mo, "tags": tags[k][:120]})
    stats["distinct_results"] = len(seen)
    stats["branch_tags"] = common.tag_hist(tags)
    ctx.cov[NAME] = stats
    ctx.cov["evaluations"] += len(lines)
    ctx.cov["distinct_nontrivial"] += len(seen)
    return stats
