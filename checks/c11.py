"""C11 — big-integer arithmetic is exact.
Lean: Model/BigInt.lean, Lemmas/BigInt.lean, Props/C11.lean.  Tie: hand model + correspondence (H):
harness/bigint_drv.c linked with the scratch build of /repo's current tree vs the compiled Lean
driver; every answer of the implementation is also checked against Python's integers."""
from vlib import common
from checks.parts import bigint

PARTS = [bigint]

def run(ctx):
    common.run_parts(ctx, PARTS)

def replay(ctx, path):
    return common.show_replay(path)
