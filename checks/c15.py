"""C15 — diagnostics point at the right file, line and column.
Lean: Model/SrcPos.lean, Lemmas/SrcPos.lean, Props/C15.lean.  Tie: hand model + correspondence (H):
harness/srcpos_drv.c (#includes srcpos.c, runs the real includer) vs the compiled Lean driver,
plus an end-to-end sub-check with the scratch-built compiler (checks/parts/srcpos.py: e2e)."""
from vlib import common
from checks.parts import srcpos

PARTS = [srcpos]

def run(ctx):
    common.run_parts(ctx, PARTS)

def replay(ctx, path):
    return common.show_replay(path)
