"""C16 — generated C is valid under every C-generation option.
Lean: Model/Mangle.lean, Model/CSplit.lean, Gen/SpecChar.lean (regenerated), Props/C16.lean.
Tie: hand models + correspondence (H): harness/mangle_drv.c (#includes the scratch tree's
genc.c) vs the compiled Lean driver; end-to-end sub-check: small programs compiled with a
sample of the option combinations, gcc + link + run, stdout compared with the default build."""
from vlib import common
from checks.parts import mangle

PARTS = [mangle]

def run(ctx):
    common.run_parts(ctx, PARTS)

def replay(ctx, path):
    return common.show_replay(path)
