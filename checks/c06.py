"""C06 — ill-typed programs are rejected, well-typed ones accepted.
Lean: Model/MiniTy.lean (typed core, checker, mutation catalogue, renderer), Model/EmitGate.lean,
Props/C06.lean.  Tie: end to end — generated programs and all their single-fault mutants are
compiled by the scratch build of /repo's current tree (checks/parts/typing.py)."""
from vlib import common
from checks.parts import typing

PARTS = [typing]

def run(ctx):
    common.run_parts(ctx, PARTS)

def replay(ctx, path):
    return common.show_replay(path)
