"""C04 -- every builtin operation means the same wherever it is evaluated.

Tie: TRANSLATOR (translate/c04.py regenerates the Lean model of the three evaluators from the
current C sources on every run) + translator self-check (the regenerated definitions and the real
folder / interpreter / C route are run on the same boundary product and compared).

  1. scratch build of /repo's current tree
  2. translate/c04.py --src <scratch src>      -> lean/AldorVerif/Gen/*.lean, c04_manifest.json
  3. lake build driver; run `driver c04` (Gen.E.X and Spec.X) and the three C drivers
     (harness/c04_drv.c = cfoldBCall, c04_fint_drv.c = fintEvalBCall, c04_cmap_drv.c = the C text
     genc prints, against libfoam.a) on the boundary product + seeded random tuples
  4. compare: real evaluator vs its generated model (translator reading); real evaluators vs Spec
     and vs each other (the property itself, on the implementation's own results)
  5. regenerate Props/C04Gen.lean with the (evaluator, builtin) pairs found wrong stated as
     `_refuted` theorems (concrete witness), build and audit every theorem
  6. findings: ctx.finding("c04|<evaluator>|<builtin>", ...) with tuple, all values, C source line
"""
import concurrent.futures, json, os, re, shutil, subprocess, sys, time
from vlib import common
from vlib.common import VERIF, LEAN

TRANSLATOR = os.path.join(VERIF, "translate", "c04.py")
GEN = os.path.join(LEAN, "AldorVerif", "Gen")
PROPS = os.path.join(LEAN, "AldorVerif", "Props", "C04Gen.lean")
MODS = ["AldorVerif.Props.C04Gen", "AldorVerif.Lemmas.C04Math"]
MATH_THEOREMS = None     # filled from Lemmas/C04Math.lean

EVALS = ("cfold", "fint", "cmap", "cmaps")
SRCFILE = {"cfold": "of_cfold.c", "fint": "fint.c", "cmap": "genc.c", "cmaps": "genc.c"}
M64 = 1 << 64

# ------------------------------------------------------------------------------------------
# tuples
# ------------------------------------------------------------------------------------------
def u(x, bits=64):
    return x % (1 << bits)

def sint_sets():
    ks_full = [1, 2, 3, 4, 5, 6, 7, 8, 15, 16, 31, 32, 33, 61, 62, 63]
    full = {0, 1, 2, 3, 5, 7, 10, 48, 57, 63, 64, 65, 90, 97, 100, 122, 127, 128, 255, 256, 1000}
    for k in ks_full:
        for d in (-1, 0, 1):
            full.add((1 << k) + d)
    full |= {-x for x in full}
    full |= {-(1 << 63), -(1 << 63) + 1, (1 << 63) - 1, (1 << 63) - 2}
    full = {x for x in full if -(1 << 63) <= x < (1 << 63)}
    binary = {0, 1, -1, 2, -2, 3, -3, 5, 7, -7, 63, 64, 65, 127, 128, 255, 256, 32767, 32768, -32768, -32769,
              (1 << 31) - 1, 1 << 31, -(1 << 31), -(1 << 31) - 1, (1 << 32) - 1, 1 << 32, (1 << 32) + 1,
              (1 << 62) - 1, 1 << 62, (1 << 62) + 1, -(1 << 62), (1 << 63) - 1, (1 << 63) - 2,
              -(1 << 63), -(1 << 63) + 1}
    ternary = {0, 1, -1, 2, 3, 5, -5, 7, (1 << 31) - 1, (1 << 32) + 1, (1 << 62) + 1, (1 << 63) - 1, (1 << 63) - 2,
               -(1 << 63)}
    f = lambda s: sorted(u(x) for x in s)
    return f(full), f(binary), f(ternary)

SINT_FULL, SINT_BIN, SINT_TER = sint_sets()
HINT = sorted(u(x, 16) for x in (0, 1, -1, 2, 127, 128, 255, 256, 32767, -32768, -32767, 12345))
BYTE = [0, 1, 2, 9, 10, 32, 47, 48, 57, 58, 64, 65, 90, 91, 96, 97, 122, 123, 126, 127, 128, 200, 254, 255]
CHARS = list(range(128))
import struct
def f32bits(x): return struct.unpack("<I", struct.pack("<f", x))[0]
def f64bits(x): return struct.unpack("<Q", struct.pack("<d", x))[0]
F32 = sorted({f32bits(x) for x in (0.0, -0.0, 1.0, -1.0, 0.5, 2.0, 3.0, 1.5, -2.5, 1e10, -1e-10, 16777216.0, 16777217.0,
                                   3.4028234663852886e38, 1.1754943508222875e-38, 1e-45, float("inf"), float("-inf"))}
             | {0x7fc00000, 0x00000001, 0x807fffff})
F64 = sorted({f64bits(x) for x in (0.0, -0.0, 1.0, -1.0, 0.5, 2.0, 3.0, 1.5, -2.5, 1e10, -1e-10, 9007199254740992.0,
                                   9007199254740993.0, 1.7976931348623157e308, 2.2250738585072014e-308, 5e-324,
                                   float("inf"), float("-inf"), 0.1, 1e300)}
             | {0x7ff8000000000000, 0x0000000000000001, 0x800fffffffffffff})
BINT = ["0", "1", "-1", "2", "-2", "3", "7", "-7", "255", "256", "65535", "65536", "2147483647", "2147483648",
        "-2147483648", "-2147483649", "4294967295", "4294967296", "9223372036854775807", "9223372036854775808",
        "-9223372036854775808", "-9223372036854775809", "18446744073709551615", "18446744073709551616",
        "1000000000000000000000000000000", "-1000000000000000000000000000000",
        "340282366920938463463374607431768211456"]
ARR = ["0", "1", "-1", "7", "123", "2147483647", "2147483648", "9223372036854775807", "1.5", "0.0", "-2.25", "1e10",
       "2r101", "16rFF", "100000000000000000000"]
PTR = [0]
ROUND = [0, 1, 2, 3, 4]
SHIFTS = sorted(u(x) for x in (0, 1, 2, 31, 32, 33, 62, 63, 64, 65, -1, 1 << 32))

BINT_NZ = [x for x in BINT if x != "0"]
BINT_SMALL = ["0", "1", "2", "3", "5", "10", "20"]

def domain(name, info, i, arity, thorough):
    d = domain0(name, info, i, arity, thorough)
    if arity >= 4 and len(d) > 4:
        step = (len(d) + 3) // 4
        d = d[::step]
    return d

def domain0(name, info, i, arity, thorough):
    t = info["args"][i]
    if name in ("BIntQuo", "BIntRem", "BIntMod", "BIntDivide") and i == 1:
        return BINT_NZ          # the runtime exits the process on a zero divisor (fiRaiseException)
    if name == "BIntBIPower" and i == 1:
        return BINT_SMALL
    if name == "BIntPowerMod":
        return [["0", "1", "2", "7", "-3", "4294967297"], ["0", "1", "2", "5", "100"],
                ["1", "2", "7", "4294967297", "1000000000000000000000000000000"]][i]
    if t == "Bool":
        return [0, 1]
    if t == "Char":
        return CHARS if arity <= 2 else BYTE
    if t == "Byte":
        return BYTE
    if t == "HInt":
        return HINT
    if t in ("SInt", "Word"):
        if ("FloR" in name or "Round" in name) and i == arity - 1:
            return ROUND
        if name in ("SIntShiftUp", "SIntShiftDn", "SIntBit", "BIntShiftUp", "BIntShiftDn", "BIntShiftRem", "BIntBit",
                    "BIntSIPower") and i == 1:
            return SHIFTS if not name.startswith("BInt") else [0, 1, 2, 31, 32, 63, 64, 65, 100]
        if "Assemble" in name:
            return SINT_TER
        if arity == 1:
            return SINT_FULL
        if arity == 2:
            return SINT_FULL if (thorough and all(a in ("SInt", "Word") for a in info["args"])) else SINT_BIN
        return SINT_BIN if thorough else SINT_TER
    if t == "SFlo":
        return F32 if arity <= 2 else F32[::2]
    if t == "DFlo":
        return F64 if arity <= 2 else F64[::2]
    if t == "BInt":
        return BINT if arity <= 2 else BINT[::3]
    if t == "Arr":
        return ARR
    if t == "Ptr":
        return PTR
    return []

def rand_value(rng, t):
    if t == "Bool":
        return rng.randint(0, 1)
    if t == "Char":
        return rng.randint(0, 127)
    if t == "Byte":
        return rng.randint(0, 255)
    if t == "HInt":
        return rng.randint(0, 65535)
    if t in ("SInt", "Word"):
        k = rng.choice((8, 16, 31, 32, 33, 62, 63, 64))
        return u(rng.randint(-(1 << (k - 1)), (1 << (k - 1)) - 1))
    if t == "SFlo":
        return rng.choice(F32) if rng.random() < 0.2 else f32bits(rng.uniform(-1e6, 1e6))
    if t == "DFlo":
        return rng.choice(F64) if rng.random() < 0.2 else f64bits(rng.uniform(-1e12, 1e12))
    if t == "BInt":
        return str(rng.randint(-(1 << rng.choice((8, 40, 70, 130))), 1 << rng.choice((8, 40, 70, 130))))
    if t == "Arr":
        return rng.choice(ARR)
    return 0

def gen_requests(man, rng, thorough):
    import itertools
    reqs = []
    counts = {}
    for name, b in man["builtins"].items():
        n = len(b["args"])
        doms = [domain(name, b, i, n, thorough) for i in range(n)]
        if any(not d for d in doms):
            continue
        k0 = len(reqs)
        for tup in itertools.product(*doms):
            reqs.append((name, tuple(tup)))
        if n:
            nr = (2000 if thorough else 120) if any(t not in ("Bool",) for t in b["args"]) else 0
            for _ in range(nr):
                tup = tuple(rand_value(rng, t) for t in b["args"])
                if ("FloR" in name or "Round" in name) and b["args"][-1] == "SInt":
                    tup = tup[:-1] + (rng.choice(ROUND),)
                if name.startswith("BInt") and n == 2 and b["args"][1] == "SInt":
                    tup = tup[:-1] + (rng.randint(0, 130),)
                if name in ("BIntBIPower",):
                    tup = (tup[0], str(rng.randint(0, 20)))
                if name in ("BIntQuo", "BIntRem", "BIntMod") and tup[1] == "0":
                    tup = (tup[0], "1")
                if name == "BIntPowerMod":
                    tup = (tup[0], str(rng.randint(0, 200)), str(rng.randint(1, 1 << 70)))
                reqs.append((name, tup))
        counts[name] = len(reqs) - k0
    return reqs, counts

def req_line(r):
    return " ".join([r[0]] + [str(x) if x != "" else '""' for x in r[1]])

# ------------------------------------------------------------------------------------------
# running the four sides
# ------------------------------------------------------------------------------------------
def parse_kv(line):
    d = {}
    for tok in line.split(" "):
        if "=" in tok:
            k, v = tok.split("=", 1)
            d[k] = v
    return d

def translate(src, extra=()):
    cmd = [sys.executable, TRANSLATOR, "--src", src, "--out", os.path.join(LEAN, "AldorVerif"), "--quiet"] + list(extra)
    rc, out, err = common.run(cmd, timeout=600)
    if rc != 0:
        raise RuntimeError("translate/c04.py failed: " + (out + err)[-3000:])
    return json.load(open(os.path.join(GEN, "c04_manifest.json")))

def build_libfoam(build):
    d = os.path.join(build.comp, "lib", "libfoam")
    rc, out, err = common.run(build.mk + ["libfoam.a"], cwd=d, timeout=900)
    if rc != 0:
        raise common.BuildError("make libfoam.a failed:\n" + (out + err)[-3000:])
    return os.path.join(d, "libfoam.a")

def build_drivers(build):
    h = os.path.join(VERIF, "harness")
    exe = {}
    exe["cfold"] = build.cc_driver("c04_drv", os.path.join(h, "c04_drv.c"))
    exe["fint"] = build.cc_driver("c04_fint_drv", os.path.join(h, "c04_fint_drv.c"))
    lf = build_libfoam(build)
    # the generated C text, compiled exactly as the runtime is (-DFOAM_RTS), against the runtime library
    gen_c = os.path.join(build.top, "c04gen")
    os.makedirs(gen_c, exist_ok=True)
    shutil.copy(os.path.join(GEN, "c04_cmap_gen.c"), os.path.join(gen_c, "c04_cmap_gen.c"))
    exe["cmap"] = os.path.join(build.top, "c04_cmap_drv")
    cmd = ["gcc", "-O1", "-g", "-w", "-DFOAM_RTS", "-fno-strict-aliasing", "-I" + build.src, "-I" + h, "-I" + gen_c,
           os.path.join(h, "c04_cmap_drv.c"), "-o", exe["cmap"], lf, "-lm"]
    rc, out, err = common.run(cmd, timeout=600)
    if rc != 0:
        raise common.BuildError("c04_cmap_drv failed to compile:\n" + (out + err)[-3000:])
    return exe

# ------------------------------------------------------------------------------------------
# end-to-end replay helper
# ------------------------------------------------------------------------------------------
AS_TYPE = {"Bool": "Bool", "Char": "Char", "Byte": "Byte", "HInt": "HInt", "SInt": "SInt", "Word": "Word",
           "SFlo": "SFlo", "DFlo": "DFlo", "BInt": "BInt", "Arr": "Arr", "Ptr": "Ptr"}

def s64(x):
    x = int(x) % M64
    return x - M64 if x >= (1 << 63) else x

def as_operand(t, v):
    """Aldor expression of Machine type t whose value is constant-foldable at -Q2"""
    if t == "Bool":
        return "BoolTrue()" if int(v) else "BoolFalse()"
    if t in ("SInt", "Word"):
        x = s64(v)
        if x == -(1 << 63):
            return None
        lit = "(%d@MachineInteger)" % x if x >= 0 else "((-%d)@MachineInteger)" % (-x)
        e = "(%s pretend SInt)" % lit
        return e if t == "SInt" else None
    if t == "Char":
        return "CharNum((%d@MachineInteger) pretend SInt)" % int(v)
    if t == "Byte":
        return "SIntToByte((%d@MachineInteger) pretend SInt)" % int(v)
    if t == "HInt":
        x = int(v) % 65536
        x = x - 65536 if x >= 32768 else x
        return "SIntToHInt((%s@MachineInteger) pretend SInt)" % (("%d" % x) if x >= 0 else "(-%d)" % -x)
    if t == "BInt":
        x = int(v)
        return "((%s@Integer) pretend BInt)" % (("%d" % x) if x >= 0 else "(-%d)" % -x)
    if t == "DFlo":
        d = struct.unpack("<d", struct.pack("<Q", int(v)))[0]
        if d != d or d in (float("inf"), float("-inf")):
            return None
        r = repr(abs(d))
        if "e" in r or "E" in r or "." not in r:
            return None
        lit = "(%s@DoubleFloat)" % r
        return "((%s%s) pretend DFlo)" % ("-" if str(d).startswith("-") else "", lit)
    if t == "SFlo":
        d = struct.unpack("<f", struct.pack("<I", int(v)))[0]
        if d != d or d in (float("inf"), float("-inf")):
            return None
        r = repr(abs(d))
        if "e" in r or "E" in r or "." not in r:
            return None
        return "((%s(%s@SingleFloat)) pretend SFlo)" % ("-" if str(d).startswith("-") else "", r)
    if t == "Arr":
        if '"' in str(v):
            return None
        return '(("%s"@String) pretend Arr)' % v
    return None

def as_show(t, e):
    if t == "Bool":
        return "(%s pretend Boolean)" % e
    if t in ("SInt", "Word"):
        return "(%s pretend MachineInteger)" % e
    if t == "Char":
        return "(CharOrd(%s) pretend MachineInteger)" % e
    if t == "Byte":
        return "(ByteToSInt(%s) pretend MachineInteger)" % e
    if t == "HInt":
        return "(HIntToSInt(%s) pretend MachineInteger)" % e
    if t == "BInt":
        return "(%s pretend Integer)" % e
    if t == "DFlo":
        return "(%s pretend DoubleFloat)" % e
    if t == "SFlo":
        return "(%s pretend SingleFloat)" % e
    return None

def e2e_program(name, b, tup):
    ops = [as_operand(t, v) for t, v in zip(b["args"], tup)]
    if any(o is None for o in ops):
        return None
    call = "%s(%s)" % (name, ", ".join(ops))
    sh = as_show(b["ret"], call)
    if sh is None:
        return None
    used = {name, "BoolTrue", "BoolFalse", "CharNum", "CharOrd", "SIntToByte", "ByteToSInt", "SIntToHInt", "HIntToSInt"}
    sigs = {
        "BoolTrue": "() -> Bool", "BoolFalse": "() -> Bool", "CharNum": "(SInt) -> Char", "CharOrd": "(Char) -> SInt",
        "SIntToByte": "(SInt) -> Byte", "ByteToSInt": "(Byte) -> SInt", "SIntToHInt": "(SInt) -> HInt",
        "HIntToSInt": "(HInt) -> SInt",
    }
    sigs[name] = "(%s) -> %s" % (", ".join(AS_TYPE[t] for t in b["args"]), AS_TYPE[b["ret"]])
    imports = "; ".join("%s: %s" % (k, sigs[k]) for k in sorted(sigs))
    return ('#include "aldor"\n#include "aldorio"\nByte ==> XByte;\nimport from Machine;\n'
            'import { %s } from Builtin;\n'
            'import from MachineInteger, Integer, Boolean, Character, DoubleFloat, SingleFloat, String;\n'
            'stdout << %s << newline;\n' % (imports, sh))

def e2e_run(build, name, b, tup, timeout=120):
    """-> {route: output}; routes: interp-Q0, c-Q0, interp-Q2, c-Q2"""
    prog = e2e_program(name, b, tup)
    if prog is None:
        return {"skipped": "tuple not expressible as Aldor literals"}
    R = common.ALDOR_TOP
    S = build.src
    base = [build.aldor, "-Nfile=%s/aldor.conf" % S, "-Y%s/aldor/lib/libfoam/al" % R, "-I%s/lib/aldor/include" % R,
            "-Y%s/lib/aldor/src" % R, "-laldor"]
    native = ["-Fx", "-Ccc=%s/aldor/subcmd/unitools/unicl" % R, "-Cargs=-Wconfig=%s/aldor.conf -I%s" % (S, S),
              "-Y%s/aldor/lib/libfoam" % R]
    res = {"program": prog}
    def one(route):
        kind, q = route.split("-")
        d = common.scratch("aldor-verif-e2e-")
        with open(os.path.join(d, "t.as"), "w") as f:
            f.write(prog)
        if kind == "interp":
            rc, out, err = common.run(base + ["-" + q, "-Ginterp", "t.as"], cwd=d, timeout=timeout)
            return route, (out.strip() if rc == 0 else "rc=%s %s" % (rc, (out + err).strip()[-300:]))
        rc, out, err = common.run(base + ["-" + q] + native + ["t.as"], cwd=d, timeout=timeout)
        if rc != 0:
            return route, "compile rc=%s %s" % (rc, (out + err).strip()[-300:])
        rc, out, err = common.run([os.path.join(d, "t")], cwd=d, timeout=30)
        return route, (out.strip() if rc == 0 else "rc=%s %s" % (rc, (out + err).strip()[-200:]))
    with concurrent.futures.ThreadPoolExecutor(max_workers=4) as ex:
        for route, out in ex.map(one, ("interp-Q0", "c-Q0", "interp-Q2", "c-Q2")):
            res[route] = out
    return res

# ------------------------------------------------------------------------------------------
# analysis
# ------------------------------------------------------------------------------------------
def lean_lit(t, v):
    if t == "Bool":
        return "true" if int(v) else "false"
    bits = {"Char": 8, "Byte": 8, "HInt": 16, "SInt": 64, "Word": 64}.get(t)
    if bits is None:
        return None
    return "%d#%d" % (int(v) % (1 << bits), bits)

def refutations(B, reqs, outs, model_wrong):
    """theorem name -> {"args": lean literals, "r": lean literal of the value that breaks it}"""
    refuted = {}
    for (ev, X, kind), i in model_wrong.items():
        tup = reqs[i][1]
        lits = [lean_lit(t, v) for t, v in zip(B[X]["args"], tup)]
        if any(l is None for l in lits):
            continue
        m = parse_kv(outs["model"][i])
        r = None
        if kind == "spec":
            sv = (m.get("spec") or "").split(":")
            if len(sv) < 2:
                continue
            r = lean_lit(B[X]["ret"], sv[1])
        elif kind == "canon":
            mv = (m.get(ev) or "").split(":")
            if len(mv) != 3:
                continue
            r = "%s#64" % mv[2]
        if kind != "notrap" and r is None:
            continue
        refuted["%s_%s_%s" % (ev, X, kind)] = {"args": lits, "r": r}
    return refuted

def source_line(build, ev, line):
    try:
        ls = open(os.path.join(build.src, SRCFILE[ev]), errors="replace").read().split("\n")
        return "%s:%s: %s" % (SRCFILE[ev], line, " ".join(x.strip() for x in ls[line - 1:line + 3]))[:300]
    except Exception:
        return "%s:%s" % (SRCFILE[ev], line)

def analyse(B, reqs, lines, outs):
    """-> corr, wrong, model_wrong, hist, distinct  (see run)"""
    # per-request analysis
    corr = {}        # (ev, X) -> first (req, real, model)   translator reading differs from the code
    wrong = {}       # (ev, X) -> dict(kind, req, ...)        the real evaluator violates the property
    model_wrong = {} # (ev, X, kind) -> witness req           the model violates Spec / canon / notrap
    agree_bad = {}   # (X, e1, e2) -> req
    hist = {}
    distinct = set()
    def note_wrong(ev, X, kind, i, detail):
        wrong.setdefault((ev, X), {"kind": kind, "i": i, "detail": detail})
    for i, (X, tup) in enumerate(reqs):
        b = B[X]
        m = parse_kv(outs["model"][i])
        real = {"cfold": outs["cfold"][i], "fint": outs["fint"][i]}
        real.update(parse_kv(outs["cmap"][i]))
        spec = m.get("spec")
        isbool = b["ret"] == "Bool"
        has_ptr = "Ptr" in b["args"]
        vals = {}
        for ev in EVALS:
            st = b["evaluators"].get(ev, {}).get("status")
            rv = real.get(ev)
            if rv is None:
                continue
            mv = m.get(ev)
            # ---- translator self-check: model vs code
            if rv == "nocase":
                note_wrong(ev, X, "missing", i, "has no case for this builtin (fintEvalBCall falls through to bug(\"unimplemented\"))")
                continue
            if ev == "cfold" and (rv == "unfolded" or mv == "unfolded"):
                # a guarded case (`if (..) break;`) folds on part of its domain: both sides must agree on where
                if st == "ok" and not has_ptr and rv != mv and not (mv or "").startswith("noexec"):
                    corr.setdefault((ev, X), (lines[i], rv, mv))
                continue
            if st != "ok":
                if ev == "cfold" and st == "unfolded":
                    corr.setdefault((ev, X), (lines[i], rv, "unfolded"))
                # untranslated: nothing to compare with; the property part below still applies
            elif mv is not None and not mv.startswith("noexec") and mv != "undef":
                if mv == "trap":
                    if not rv.startswith("FAULT"):
                        corr.setdefault((ev, X), (lines[i], rv, mv))
                elif rv != mv:
                    corr.setdefault((ev, X), (lines[i], rv, mv))
            hist[ev] = hist.get(ev, 0) + 1
            vals[ev] = rv
            distinct.add(rv)
            # ---- the property on the implementation's own result
            if rv.startswith("FAULT"):
                if ev == "cfold":
                    note_wrong(ev, X, "notrap", i, "the compiler itself faults (%s) when folding" % rv)
                elif spec and spec != "none":
                    note_wrong(ev, X, "spec", i, "faults (%s) where the operation is defined (%s)" % (rv, spec))
                continue
            if isbool:
                parts = rv.split(":")
                if len(parts) == 3 and parts[2] not in ("0", "1"):
                    note_wrong(ev, X, "canon", i, "returns the non-canonical truth value %s" % parts[2])
                rvv = ":".join(parts[:2])
            else:
                rvv = rv
            if spec and spec != "none" and rvv != spec:
                note_wrong(ev, X, "spec", i, "returns %s, the operation's meaning is %s" % (rvv, spec))
            # model-level witnesses (used to state the refutation theorems)
            if mv and st == "ok" and not mv.startswith("noexec"):
                if ev == "cfold" and mv == "trap":
                    model_wrong.setdefault((ev, X, "notrap"), i)
                if isbool and mv.startswith("v:"):
                    p = mv.split(":")
                    if len(p) == 3 and p[2] not in ("0", "1"):
                        model_wrong.setdefault((ev, X, "canon"), i)
                if spec and spec != "none":
                    mvv = ":".join(mv.split(":")[:2]) if isbool else mv
                    if mvv != spec:
                        model_wrong.setdefault((ev, X, "spec"), i)
        # model-level trap witness also when the real folder was not comparable
        mvc = m.get("cfold")
        if mvc == "trap":
            model_wrong.setdefault(("cfold", X, "notrap"), i)
        # ---- evaluators against each other (builtins without a Spec entry)
        if not spec:
            evs = [e for e in EVALS if e in vals and not vals[e].startswith("FAULT")]
            tv = {e: (":".join(vals[e].split(":")[:2]) if isbool else vals[e]) for e in evs}
            for a in range(len(evs)):
                for c in range(a + 1, len(evs)):
                    if tv[evs[a]] != tv[evs[c]]:
                        agree_bad.setdefault((X, evs[a], evs[c]), i)

    # disagreement between evaluators: blame the minority
    for (X, e1, e2), i in sorted(agree_bad.items()):
        m = parse_kv(outs["model"][i])
        real = {"cfold": outs["cfold"][i], "fint": outs["fint"][i]}
        real.update(parse_kv(outs["cmap"][i]))
        isbool = B[X]["ret"] == "Bool"
        tv = {e: (":".join(real[e].split(":")[:2]) if isbool else real[e]) for e in EVALS
              if e in real and real[e] not in ("unfolded",) and not real[e].startswith("FAULT")}
        cnt = {}
        for e, v in tv.items():
            cnt.setdefault(v, []).append(e)
        groups = sorted(cnt.values(), key=len)
        blamed = groups[0] if len(groups) > 1 and len(groups[0]) < len(groups[-1]) else [e2]
        for e in blamed:
            note_wrong(e, X, "agree", i, "differs from the other evaluators: " + ", ".join("%s=%s" % kv for kv in sorted(tv.items())))

    return corr, wrong, model_wrong, hist, distinct

def progress(msg):
    if os.environ.get("C04_VERBOSE"):
        print("[c04 %7.1fs] %s" % (time.time() - _T0[0], msg), file=sys.stderr, flush=True)
_T0 = [time.time()]

def run(ctx):
    thorough = ctx.tier == "thorough"
    t0 = time.time()
    _T0[0] = t0
    build = common.Build()
    ctx.cov["repo_build_s"] = round(build.wall, 1)
    progress("scratch build done")
    man = translate(build.src)
    progress("translated")
    ctx.cov["translate_s"] = round(time.time() - t0 - build.wall, 1)
    B = man["builtins"]
    status = {ev: {} for ev in EVALS}
    for n, b in B.items():
        for ev, r in b["evaluators"].items():
            status[ev].setdefault(r["status"], []).append(n)
    ctx.cov["translation"] = {ev: {k: len(v) for k, v in status[ev].items()} for ev in EVALS}
    untr = [(ev, n, B[n]["evaluators"][ev].get("why")) for ev in EVALS for n in status[ev].get("untranslated", [])]
    ctx.cov["untranslated"] = ["%s.%s: %s" % x for x in untr]

    # Lean driver (Gen + Spec, not the theorems)
    ok, log, wall = common.lean_build(["drv_c04"])
    ctx.cov["lean_driver_build_s"] = round(wall, 1)
    if not ok:
        ctx.build_log = log
        ctx.violation("c04|generated-lean-does-not-build", "the regenerated Lean definitions do not build: " + log[-600:],
                      {"kind": "proof-broken", "log_tail": log[-4000:]}, found_input=False)
        return
    progress("lean driver built")
    exe = build_drivers(build)
    progress("C drivers built")
    reqs, counts = gen_requests(man, ctx.rng, thorough)
    lines = [req_line(r) for r in reqs]
    text = "\n".join(lines) + "\n"
    nocase = {n for n, b in B.items() if "no case" in (b["evaluators"].get("fint", {}).get("why") or "")}
    def side(which):
        if which == "model":
            return which, common.run_model("c04", text)
        if which == "fint" and nocase:
            # fintEvalBCall has no case for these: it would stop in bug(); do not ask
            idx = [i for i, r in enumerate(reqs) if r[0] not in nocase]
            got = common.run_impl_lines(exe[which], [lines[i] for i in idx], timeout=1200)
            full = ["nocase"] * len(lines)
            for i, g in zip(idx, got):
                full[i] = g
            return which, full
        return which, common.run_impl_lines(exe[which], lines, timeout=1200)
    with concurrent.futures.ThreadPoolExecutor(max_workers=4) as ex:
        outs = dict(ex.map(side, ("model", "cfold", "fint", "cmap")))
    for k, v in outs.items():
        if len(v) != len(lines):
            raise RuntimeError("%s side answered %d of %d lines" % (k, len(v), len(lines)))
    progress("all sides answered %d lines" % len(lines))
    ctx.cov["evaluations"] = len(lines) * 4
    ctx.cov["requests"] = len(lines)

    corr, wrong, model_wrong, hist, distinct = analyse(B, reqs, lines, outs)
    ctx.cov["answers"] = hist
    ctx.cov["distinct_nontrivial"] = len(distinct)
    ctx.cov["per_builtin_requests"] = {"min": min(counts.values()), "max": max(counts.values()), "builtins": len(counts)}
    # ---- refutation theorems from model-level witnesses
    refuted = refutations(B, reqs, outs, model_wrong)
    # agree theorems touching an (evaluator, builtin) that misbehaves on the real code are not
    # stated (they are accompanied by a finding); everything else must be proved
    skip = set()
    for th in man["theorems"]:
        if th["kind"] == "agree" and any((e, th["builtin"]) in wrong for e in th["evaluators"]):
            skip.add(th["name"].split(".")[-1])
    rf = os.path.join(build.top, "c04_refuted.json")
    json.dump(refuted, open(rf, "w"))
    man = translate(build.src, ["--props-only", "--refuted", rf] + (["--skip", ",".join(sorted(skip))] if skip else []))
    theorems = [("AldorVerif.Props.C04Gen", t["name"]) for t in man["theorems"]] + math_theorems()
    ctx.trusted.append("translator translate/c04.py (accepted C fragment and C-semantics assumptions: translate/README.md); "
                       "hand-written Model/CSem.lean, Model/Foam/Spec.lean; clang-14 AST")
    ctx.trusted.append("source fingerprints: %s" % common.source_fingerprint(
        ["of_cfold.c", "fint.c", "genc.c", "foam_c.h", "foam_c.c", "foam_i.c", "foam.c"]))
    ctx.cov["theorem_kinds"] = {}
    for t in man["theorems"]:
        ctx.cov["theorem_kinds"][t["kind"]] = ctx.cov["theorem_kinds"].get(t["kind"], 0) + 1
    ctx.cov["agree_theorems_not_stated"] = sorted(skip)
    progress("analysis done; refuted=%d skip=%d wrong=%d corr=%d" % (len(refuted), len(skip), len(wrong), len(corr)))
    proved = ctx.prove(MODS, theorems)
    progress("prove returned %s (discharged %d of %d)" % (proved, ctx.discharged, len(theorems)))
    failed_names = []
    if not proved:
        failed_names = failing_theorems(getattr(ctx, "build_log", ""))
        if failed_names and ctx.discharged == 0:
            # audit the rest: regenerate with the failing theorems left out
            man = translate(build.src, ["--props-only", "--refuted", rf, "--skip", ",".join(sorted(skip | set(failed_names)))])
            theorems = [("AldorVerif.Props.C04Gen", t["name"]) for t in man["theorems"]] + math_theorems()
            ctx.prove(MODS, theorems)
            ctx.obligations = list(theorems) + [("AldorVerif.Props.C04Gen", "AldorVerif.Props.C04Gen." + n) for n in failed_names]

    # ---- report
    def all_values(i):
        m = parse_kv(outs["model"][i])
        real = {"cfold": outs["cfold"][i], "fint": outs["fint"][i]}
        real.update(parse_kv(outs["cmap"][i]))
        return {"request": lines[i], "real": real, "model": {k: v for k, v in m.items() if k != "spec"}, "spec": m.get("spec")}
    e2e_budget = [len(wrong) if thorough else 0]
    for (ev, X), w in sorted(wrong.items()):
        i = w["i"]
        b = B[X]
        line = b["evaluators"].get(ev, {}).get("line")
        rep = {"kind": "impl-violates-property", "evaluator": ev, "builtin": X, "violation": w["kind"],
               "tuple": list(reqs[i][1]), "arg_types": b["args"], "values": all_values(i),
               "c_source": source_line(build, ev, line) if line else SRCFILE[ev],
               "c_text_printed_by_genc": b["evaluators"].get(ev, {}).get("c_expr") if ev.startswith("cmap") else None,
               "replay_cmd": "./check C04 --replay <this file>   (re-runs the three real evaluators and the end-to-end program)"}
        if e2e_budget[0] > 0:
            e2e_budget[0] -= 1
            rep["end_to_end"] = e2e_run(build, X, b, reqs[i][1])
        ctx.finding("c04|%s|%s" % (ev, X),
                    "%s %s%s %s [%s]" % ({"cfold": "the compile-time folder", "fint": "the interpreter",
                                          "cmap": "the generated C (expression form)", "cmaps": "the generated C (statement form)"}[ev],
                                         X, tuple(reqs[i][1]), w["detail"], w["kind"]), rep)
    if corr:
        first = sorted(corr.items())[0]
        ctx.violation("c04|translator-self-check",
                      "the regenerated model and the real evaluator differ on %d (evaluator, builtin) pair(s), e.g. %s.%s on `%s`: real %s, model %s"
                      % (len(corr), first[0][0], first[0][1], first[1][0], first[1][1], first[1][2]),
                      {"kind": "correspondence-broken", "pairs": {"%s.%s" % k: {"request": v[0], "real": v[1], "model": v[2]}
                                                                  for k, v in sorted(corr.items())}}, found_input=False)
    progress("findings reported")
    # quick-tier end-to-end sample (fixed)
    sample = [("SIntPlus", (2, 3)), ("SIntIsOdd", (u(-3),)), ("BoolAnd", (1, 0))] if not thorough else \
             [("SIntPlus", (2, 3)), ("SIntIsOdd", (u(-3),)), ("BoolAnd", (1, 0)), ("CharIsDigit", (53,)),
              ("SIntTimesMod", (2, 3, 5)), ("SIntQuo", (u(-7), 2))]
    with concurrent.futures.ThreadPoolExecutor(max_workers=3) as ex:
        e2e = list(ex.map(lambda s: (s, e2e_run(build, s[0], B[s[0]], s[1])) if s[0] in B else (s, {}), sample))
    ctx.cov["end_to_end_sample"] = [{"builtin": s[0], "tuple": list(s[1]),
                                     **{k: v for k, v in r.items() if k != "program"}} for s, r in e2e]
    for s, r in e2e:
        ctx.sample({"end_to_end": "%s%s" % s, **{k: v for k, v in r.items() if k != "program"}})
    if not proved:
        # a theorem that is neither proved nor refuted on the boundary product
        names = failed_names or getattr(ctx, "bad_obligations", [])
        msg = "; ".join(names[:12]) or "lake build failed"
        ctx.violation("c04|proof-obligation|" + msg[:160],
                      "generated theorem(s) no longer check and the boundary product shows no failing tuple for them: " + msg,
                      {"kind": "proof-broken", "theorems": names, "log_tail": getattr(ctx, "build_log", "")[-3000:],
                       "note": "searched %d tuples; model-level witnesses were found for: %s" % (len(lines), sorted(refuted))},
                      found_input=False)
    ctx.cov["findings"] = sorted("%s|%s:%s" % (k[0], k[1], v["kind"]) for k, v in wrong.items())
    ctx.cov["refuted_theorems"] = sorted(refuted)
    ctx.cov.setdefault("rule", "request = builtin + tuple from the boundary product of its argument types, then seeded random; "
                       "each request is evaluated by the three real evaluators, by their regenerated Lean models and by Spec")

def math_theorems():
    global MATH_THEOREMS
    if MATH_THEOREMS is None:
        p = os.path.join(LEAN, "AldorVerif", "Lemmas", "C04Math.lean")
        txt = common.strip_lean_comments(open(p).read()) if os.path.exists(p) else ""
        MATH_THEOREMS = [("AldorVerif.Lemmas.C04Math", "AldorVerif.C04Math." + n)
                         for n in re.findall(r"^theorem (\w+)", txt, re.M)]
    return MATH_THEOREMS

def failing_theorems(log):
    names = []
    srcs = {}
    for m in re.finditer(r"error: \S*Props/(C04Gen\d*)\.lean:(\d+):\d+", log):
        f = m.group(1)
        if f not in srcs:
            try:
                srcs[f] = open(os.path.join(LEAN, "AldorVerif", "Props", f + ".lean")).read().split("\n")
            except OSError:
                srcs[f] = []
        src = srcs[f]
        i = min(int(m.group(2)) - 1, len(src) - 1)
        while i >= 0 and not src[i].startswith("theorem "):
            i -= 1
        if i >= 0:
            n = src[i].split()[1]
            if n not in names:
                names.append(n)
    return names

def replay(ctx, path):
    r = json.load(open(path))
    print(json.dumps(r, indent=1))
    rep = r.get("replay", {})
    if rep.get("kind") != "impl-violates-property":
        return 0
    build = common.Build()
    man = translate(build.src)
    X = rep["builtin"]; tup = tuple(rep["tuple"])
    b = man["builtins"].get(X)
    if b is None:
        print("builtin %s no longer exists" % X)
        return 1
    common.lean_build(["drv_c04"])
    progress("lean driver built")
    exe = build_drivers(build)
    progress("C drivers built")
    ln = req_line((X, tup))
    print("request:", ln)
    print("model :", common.run_model("c04", ln + "\n")[0])
    for k in ("cfold", "fint", "cmap"):
        print("%-6s:" % k, common.run_impl_lines(exe[k], [ln])[0])
    print("end-to-end:", json.dumps(e2e_run(build, X, b, tup), indent=1))
    return 0
