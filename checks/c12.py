"""C12 — the Java back end agrees with the other execution routes.
Lean: Gen/JMap.lean (translated on every run from genjava.c / javacode.c / foamj), Model/JSem.lean,
Model/JSpec.lean, Props/C12.lean.  Tie: translator + JVM correspondence (part jmap) and end-to-end
the real expression printer vs Model/JPrint.lean and vs Java's grammar (part jprint), and end-to-end
search -Fjava -> javac -> java vs -Ginterp (part javasearch)."""
from vlib import common
from checks.parts import jmap, jprint, javasearch

PARTS = [jmap, jprint, javasearch]

def run(ctx):
    # Gen/JMap.lean is regenerated from the tree's current sources before the Lean build (rewritten only on
    # change).  run_parts calls the parts' prepare_src hook as well; calling it here keeps C12 independent of
    # the hook's name.
    jmap.prepare_src(common.SRC)
    common.run_parts(ctx, PARTS)

def replay(ctx, path):
    return common.show_replay(path)
