"""C12 — the Java back end agrees with the other execution routes.
Lean: Gen/JMap.lean (translated on every run from genjava.c / javacode.c / foamj), Model/JSem.lean,
Model/JSpec.lean, Props/C12.lean.  Tie: translator + JVM correspondence (part jmap) and end-to-end
search -Fjava -> javac -> java vs -Ginterp (part javasearch)."""
from vlib import common
from checks.parts import jmap, javasearch

PARTS = [jmap, javasearch]

def run(ctx):
    common.run_parts(ctx, PARTS)     # calls jmap.prepare(src) first: Gen/JMap.lean is regenerated before the Lean build

def replay(ctx, path):
    return common.show_replay(path)
