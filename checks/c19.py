"""C19 — floating-point constants keep their exact value.
Lean: Model/XFloat.lean, Lemmas/XFloat.lean, Props/C19.lean.  Tie: hand model + correspondence (H):
harness/xfloat_drv.c linked with the scratch build of /repo's current tree vs the compiled Lean driver."""
from vlib import common
from checks.parts import xfloat

PARTS = [xfloat]

def run(ctx):
    common.run_parts(ctx, PARTS)

def replay(ctx, path):
    return common.show_replay(path)
