"""C07 — the compiler is total on arbitrary source text and reports honestly.
Lean: Gen/CharIndex.lean (regenerated from the tree under check by translate/chartables.py on every run, via
the part's prepare()), Model/Scan.lean, Model/Exit.lean, Lemmas/Scan.lean, Props/C07.lean.
Tie: translator (G) for the char-indexed tables and the keyword table; hand model (H) of the scanner's
dispatch tied by `-WTrt+sc` token dumps of the scratch-built compiler; search (fuzz) for everything the
model cannot exhibit (parser, macro expander, type checker, back end)."""
from vlib import common
from checks.parts import scanfuzz

PARTS = [scanfuzz]

def run(ctx):
    ctx.assumptions.append("glibc's ctype tables (*__ctype_b_loc()) are valid for subscripts -128..255 (C locale; the compiler never calls setlocale)")
    ctx.assumptions.append("plain `char` is signed on the build target (x86-64 Linux, no -funsigned-char in the Makefile)")
    ctx.assumptions.append("scan model scope: text without NUL bytes and without system-command lines; scanNumber only dispatched to, not followed")
    common.run_parts(ctx, PARTS, hooks=False)

def replay(ctx, path):
    return common.show_replay(path)
