"""C07 — the compiler is total on arbitrary source text and reports honestly.
Lean: Gen/CharIndex.lean, Gen/Diagnostics.lean, Gen/Catalogue.lean (regenerated on every run by the parts'
prepare_src()), Model/Scan.lean, Model/Exit.lean, Model/IfState.lean, Lemmas/Scan.lean, Lemmas/IfState.lean,
Props/C07.lean.
Tie: translators (G) for the char-indexed tables, the keyword table and the diagnostic sites; hand models (H)
of the scanner's dispatch and of the includer's if-state machine tied by `-WTrt+sc` / `-WTr+in` dumps of the
scratch-built compiler; a deterministic catalogue of invalid-by-construction inputs with recorded verdicts
(part scancat, runs first); search (part scanfuzz) for everything the models cannot exhibit."""
from vlib import common
from checks.parts import scancat, scanfuzz

PARTS = [scancat, scanfuzz]

def run(ctx):
    ctx.assumptions.append("glibc's ctype tables (*__ctype_b_loc()) are valid for subscripts -128..255 (C locale; the compiler never calls setlocale)")
    ctx.assumptions.append("plain `char` is signed on the build target (x86-64 Linux, no -funsigned-char in the Makefile)")
    ctx.assumptions.append("scan model scope: text without NUL bytes and without system-command lines; scanNumber only dispatched to, not followed")
    ctx.assumptions.append("if-state model scope: the lines of one file (no #include inside the modelled sequence)")
    common.run_parts(ctx, PARTS, hooks=False)

def replay(ctx, path):
    return common.show_replay(path)
